"""C15 — elevation conditioning makes elevation non-increasing downstream; D4 digging."""
import itertools
import numpy as np
import nets

PID = "C15"
THEOREMS = ["adjust_tree", "adjust_conforming_fixed", "adjust_idempotent", "fix1d_length", "fix1d_identity_on_sorted",
            "fix1d_contract", "fix1d_contract_all", "adjust_elevation_spec", "fix1d_contract_bounded", "dig_d4_spec"]
RULE = ("1-D fixer dem._adjust_elevation on ALL integer profiles of length <= 6 over {0..3} (<= 7 over {0..3} thorough) "
        "and random profiles to length 30 with plateaus / repeated pits, int and float dtypes; dem.adjust_elevation on "
        "loop-free closed graphs with n <= 4 cells x elevations over {0,1,2} and random forests to 60 cells, every "
        "topological order handed to the kernel also handed to the model; Flwdir.dem_adjust / FlwdirRaster.dem_adjust "
        "through the public API (model gets the object's idxs_seq); dem.dig_4connectivity and FlwdirRaster.dem_dig_d4 on "
        "random loop-free D8 rasters 2x2..7x7 with nodata, with and without river mask, integer arrays with the public "
        "dz_min (truncating assignment) and exact dyadic floats; oracle on the implementation output: no valid cell "
        "lower than its downstream cell, cells outside the network untouched, values within the input range on the "
        "network, conforming input unchanged, second application changes nothing; digging never raises, never alters "
        "nodata cells, touches only side-neighbours of a considered cell or its pit; inputs byte-identical after the "
        "call; non-trivial = the operation changed at least one cell")
ASSUMPTIONS = ["elevations are integers in the model; float32/float64 runs use integer-valued or dyadic elevations, for "
               "which every sum, difference and comparison of the float code is exact",
               "the 1-D contract K of the faithful fixer model is proved for all profiles (fix1d_contract); the bounded kernel "
               "evaluation is kept as an independent cross-check",
               "dig_4connectivity is modelled on networks whose links are D8 neighbours (what FlwdirRaster d8/ldd holds)"]


def _profiles(rng, tier):
    maxl = 6 if tier == "quick" else 7
    for L in range(1, maxl + 1):
        for p in itertools.product(range(4), repeat=L):
            if L <= 5 or rng.random() < (0.35 if tier == "quick" else 0.6):
                yield list(p)
    for _ in range(2500 if tier == "quick" else 30000):      # nested humps over a small alphabet: where the options compete
        yield [rng.randint(0, 7) for _ in range(rng.randint(5, 12))]
    for _ in range(300 if tier == "quick" else 4000):
        L = rng.randint(2, 30)
        style = rng.random()
        if style < 0.3:
            p = [rng.randint(0, 5) for _ in range(L)]
        elif style < 0.6:      # mostly descending with bumps and plateaus
            z = rng.randint(20, 40)
            p = []
            for _ in range(L):
                z += rng.choice([-3, -2, -1, -1, 0, 0, 1, 2, 5])
                p.append(z)
        else:
            p = [rng.randint(-50, 50) for _ in range(L)]
        yield p


# unsigned and narrow element types only for non-negative profiles (round-2 seed: a shortcut that subtracts unsigned values)
_DTYPES = ["int32", "int64", "float32", "float64", "uint8", "uint16", "int16", "uint32"]
# modulus of the cost arithmetic (np.abs(a - b) wraps for unsigned element types); 0 = exact
_WRAP = {"uint8": 2 ** 8, "uint16": 2 ** 16, "uint32": 2 ** 32}


def _w(dtype):
    return [_WRAP.get(dtype, 0)]


def cases(tier, rng):
    for p in _profiles(rng, tier):
        dt = rng.choice(_DTYPES if min(p) >= 0 else _DTYPES[:4])
        yield {"k": 1501, "args": [p, _w(dt)], "call": {"op": 1501, "dtype": dt}, "group": "fix1d" + ("-unsigned" if dt in _WRAP else "")}
    # tree level, exhaustive small graphs
    maxn = 4 if tier == "quick" else 5
    for n in range(2, maxn + 1):
        for ds in nets.all_graphs(n):
            if not (nets.is_wf(ds) and nets.is_loopfree(ds) and nets.pits(ds)):
                continue
            if n >= 4 and rng.random() > (0.3 if tier == "quick" else 0.5):
                continue
            for elv in itertools.product(range(3), repeat=n):
                if n >= 4 and rng.random() > 0.25:
                    continue
                yield {"k": 1502, "args": [ds, nets.topo_order(ds, rng), list(elv)], "call": {"op": 1502, "dtype": "int32", "via": "kernel"},
                       "group": f"adjust-exh-n{n}"}
    for t in range(250 if tier == "quick" else 3000):
        n = rng.randint(3, 60)
        ds = nets.random_forest(rng, n)
        if not nets.pits(ds):
            continue
        style = rng.random()
        if style < 0.4:
            elv = [rng.randint(0, 6) for _ in range(n)]
        else:
            # roughly conforming: height by rank plus noise
            rk = nets.rank(ds)
            elv = [max(0, 2 * r + rng.choice([-3, -1, 0, 0, 0, 1, 4])) if (r is not None and r >= 0) else rng.randint(0, 9) for r in rk]
        via = rng.choice(["kernel", "vector", "raster"])
        sq = nets.topo_order(ds, rng) if via == "kernel" else nets.topo_order(ds)
        dt = rng.choice(_DTYPES if min(elv) >= 0 else _DTYPES[:4])
        yield {"k": 1502 if via == "kernel" else 1500, "args": [ds, sq, elv, _w(dt)],
               "call": {"op": 1502, "dtype": dt, "via": via}, "group": f"adjust-rand-{via}" + ("-unsigned" if dt in _WRAP else "")}
    # confluences of many cells (an inland pit fed by all eight neighbours and more): every one of them is conditioned
    for ktrib in (7, 8, 9, 12):
        for rep in range(3 if tier == "quick" else 12):
            ds = [0] + [0] * ktrib + [rng.randint(1, ktrib) for _ in range(4)]
            elv = [rng.randint(3, 6)] + [rng.randint(0, 9) for _ in range(ktrib + 4)]
            for via in ("raster", "vector"):
                dt = rng.choice(_DTYPES)
                yield {"k": 1500, "args": [ds, nets.topo_order(ds), elv, _w(dt)], "call": {"op": 1502, "dtype": dt, "via": via}, "group": "adjust-wide-confluence"}
    # D4 digging
    for t in range(250 if tier == "quick" else 3000):
        nr, nc = nets.rshape(rng, 2, 7)
        flw = nets.random_d8_raster(rng, nr, nc, p_nodata=rng.choice([0, 0, 0.1, 0.25]))
        ds = nets.d8_decode(flw, nr, nc)
        if not nets.pits(ds):
            continue
        n = nr * nc
        nodata = rng.choice([-9999, -1, 0])
        mode = rng.randrange(2)        # 1: integer array through the public method; 0: exact floats through the kernel
        elv = [(nodata if (ds[i] < 0 and rng.random() < 0.8) or rng.random() < 0.05 else rng.randint(-3 if nodata != 0 else 1, 9)) for i in range(n)]
        hm = rng.randrange(2)
        mask = [int(rng.random() < 0.5) for _ in range(n)] if hm else []
        via = "raster" if mode else "kernel"
        sq = nets.topo_order(ds, rng) if via == "kernel" else nets.topo_order(ds)
        yield {"k": 1503 if via == "kernel" else 1500, "args": [ds, sq, elv, [nr], [nc], [hm], mask, [nodata], [mode]],
               "call": {"op": 1503, "via": via, "dtype": rng.choice(["int32", "int64"]) if mode else rng.choice(["float32", "float64"])},
               "group": f"dig-{via}"}


def _seq_of(obj):
    return [int(x) for x in obj.idxs_seq]


def impl(case):
    from common import call_impl
    from implutil import ds_array, make_raster, make_vector
    from pyflwdir import dem
    a, call = case["args"], case["call"]
    k = call["op"]
    dt = np.dtype(call["dtype"])
    if k == 1501:
        x = np.array(a[0], dtype=dt)
        before = x.copy()
        st, v = call_impl(dem._adjust_elevation, x)
        if st != "ok":
            return [[-2], [st, str(v)[:100]]]
        v = np.asarray(v)
        if any(float(t) != int(t) for t in v.tolist()):
            return [[-3], [str(v.tolist())]]
        # the 1-D fixer is handed a fancy-indexed copy by its caller; it may not touch that either
        return [[int(t) for t in v.tolist()]] + ([] if np.array_equal(before, x) else [[-4]])
    ds = a[0]
    n = len(ds)
    if k == 1502:
        elv = np.array(a[2], dtype=dt)
        before = elv.copy()
        if call["via"] == "kernel":
            st, v = call_impl(dem.adjust_elevation, ds_array(ds), np.array(a[1], dtype=np.int32), elv, -1)
            out_seq = None
        else:
            obj = make_vector(ds) if call["via"] == "vector" else make_raster(ds)
            out_seq = _seq_of(obj)
            st, v = call_impl(obj.dem_adjust, elv if call["via"] == "vector" else elv.reshape(1, n))
        if st != "ok":
            return [[-2], [st, str(v)[:100]]]
        if not np.array_equal(before, elv):
            return [[-4], ["input mutated"]]
        v = np.asarray(v)
        if v.dtype != dt or v.size != n:
            return [[-5], [str(v.dtype), str(v.shape)]]
        res = [[int(t) for t in v.ravel().tolist()]]
        # second application (idempotence is part of the property)
        if call["via"] == "kernel":
            st2, v2 = call_impl(dem.adjust_elevation, ds_array(ds), np.array(a[1], dtype=np.int32), v.copy(), -1)
        else:
            st2, v2 = call_impl(obj.dem_adjust, v.copy())
        if st2 != "ok" or not np.array_equal(np.asarray(v2).ravel(), v.ravel()):
            return [[-6], res[0], [int(t) for t in np.asarray(v2).ravel().tolist()] if st2 == "ok" else [st2]]
        return res + ([out_seq] if out_seq is not None else [])
    if k == 1503:
        nr, nc, hm, nodata, mode = a[3][0], a[4][0], a[5][0], a[7][0], a[8][0]
        scale = 1 if mode else 1024.0
        elv = (np.array(a[2], dtype=np.float64) / scale).astype(dt) if not mode else np.array(a[2], dtype=dt)
        nod = nodata if mode else nodata / scale
        before = elv.copy()
        # the river mask is tested for truth per cell: a 0/1 mask of an integer type (a band read from a file) means the same
        # as the boolean one (round-5 seed)
        mask = np.array(a[6], dtype=[bool, np.uint8, np.int64][(sum(a[6]) + nr) % 3]) if hm else None
        if call["via"] == "kernel":
            st, v = call_impl(dem.dig_4connectivity, ds_array(ds), np.array(a[1], dtype=np.int32), elv, (nr, nc), mask, nod, 1 / 1024.0)
            out_seq = None
        else:
            obj = make_raster(ds, shape=(nr, nc))
            out_seq = _seq_of(obj)
            st, v = call_impl(obj.dem_dig_d4, elv.reshape(nr, nc), None if mask is None else mask.reshape(nr, nc), nod)
        if st != "ok":
            return [[-2], [st, str(v)[:100]]]
        if not np.array_equal(before, elv):
            return [[-4], ["input mutated"]]
        v = np.asarray(v, dtype=np.float64).ravel() * scale
        if any(float(t) != int(t) for t in v.tolist()):
            return [[-3], [str(v.tolist())]]
        return [[1], [int(t) for t in v.tolist()]] + ([out_seq] if out_seq is not None else [])


def _err(case, i):
    return bool(i) and len(i[0]) == 1 and i[0][0] in (-2, -3, -4, -5, -6) and not (case["call"]["op"] == 1501 and len(case["args"][0]) == 1 and len(i) == 1)


def compare(case, i, m):
    if not i or _err(case, i):
        return False
    if case["k"] == 1500:       # through the public API: tied to the model by post_checks on the object's own order
        return m == [[0]]
    k = case["k"]
    if k == 1501:
        return i == m
    if k == 1502:
        return i[0] == (m[0] if m else None)
    return i[:2] == m[:2]


def post_checks(case, i):
    if case["k"] != 1500 or not i or _err(case, i):
        return
    a, op = case["args"], case["call"]["op"]
    if op == 1502:
        yield ("adjust:api-differs-from-model", 1504, [a[0], i[1], a[2], i[0], _w(case["call"]["dtype"])])
    else:
        yield ("dig:api-differs-from-model", 1507, [a[0], i[2], a[2]] + a[3:9] + [i[1]])


def oracle(case, out):
    k, a = case["call"]["op"], case["args"]
    if not out:
        return ("shape", "no output")
    if _err(case, out):
        code = out[0][0]
        what = {-2: "raised", -3: "non-integer result", -4: "input array modified", -5: "dtype/shape changed", -6: "second application changes the result"}[code]
        return (f"k{k}:{what}", f"{what}: {out[1:]} on {a}")
    if k == 1501:
        p, v = a[0], out[0]
        if len(out) > 1:
            return ("fix1d:mutates", f"_adjust_elevation modified its argument {p}")
        if len(v) != len(p):
            return ("fix1d:length", f"{p} -> {v}")
        if any(v[j] < v[j + 1] for j in range(len(v) - 1)):
            return ("fix1d:not-monotone", f"_adjust_elevation({p}) = {v} increases downstream")
        if v[-1] != p[-1]:
            return ("fix1d:last-changed", f"_adjust_elevation({p}) = {v} changes the most downstream value")
        if min(v) < min(p) or max(v) > max(p):
            return ("fix1d:range", f"_adjust_elevation({p}) = {v} leaves the input range")
        if all(p[j] >= p[j + 1] for j in range(len(p) - 1)) and v != p:
            return ("fix1d:conforming-changed", f"_adjust_elevation({p}) = {v} although the input conforms")
        return None
    ds = a[0]
    n = len(ds)
    if k == 1502:
        elv, v = a[2], out[0]
        if len(v) != n:
            return ("adjust:length", str(v))
        net = [i for i in range(n) if ds[i] >= 0]
        for i in net:
            if ds[i] != i and v[i] < v[ds[i]]:
                return ("adjust:not-monotone", f"cell {i} ({v[i]}) lower than its downstream cell {ds[i]} ({v[ds[i]]}); ds={ds} elv={elv} out={v}")
        for i in range(n):
            if ds[i] < 0 and v[i] != elv[i]:
                return ("adjust:off-network", f"cell {i} outside the network changed {elv[i]} -> {v[i]}; ds={ds}")
        if net:
            lo, hi = min(elv[i] for i in net), max(elv[i] for i in net)
            if any(not (lo <= v[i] <= hi) for i in net):
                return ("adjust:range", f"values leave [{lo},{hi}]: ds={ds} elv={elv} out={v}")
        if all(ds[i] == i or elv[i] >= elv[ds[i]] for i in net) and v != elv:
            return ("adjust:conforming-changed", f"conforming input changed: ds={ds} elv={elv} out={v}")
        return None
    if k == 1503:
        elv, v = a[2], out[1]
        nr, nc, hm, mask, nodata = a[3][0], a[4][0], a[5][0], a[6], a[7][0]
        if len(v) != n:
            return ("dig:length", str(v))
        cons = [i for i in range(n) if ds[i] >= 0 and (not hm or mask[i])]
        near = set()
        for i in cons:
            for c in (i, ds[i] if ds[ds[i]] == ds[i] else i):
                r0, c0 = divmod(c, nc)
                for dr, dc in ((-1, 0), (1, 0), (0, -1), (0, 1)):
                    if 0 <= r0 + dr < nr and 0 <= c0 + dc < nc:
                        near.add((r0 + dr) * nc + c0 + dc)
        for j in range(n):
            if v[j] > elv[j]:
                return ("dig:raised", f"cell {j} raised {elv[j]} -> {v[j]}; ds={ds} elv={elv} mask={mask}")
            if elv[j] == nodata and v[j] != nodata:
                return ("dig:nodata-altered", f"nodata cell {j} became {v[j]}; ds={ds} elv={elv}")
            if v[j] != elv[j] and j not in near:
                return ("dig:far-cell", f"cell {j} changed {elv[j]} -> {v[j]} but is not side-adjacent to a considered river cell or its pit; shape {nr}x{nc} ds={ds} elv={elv} mask={mask}")
        return None


def nontrivial(case, out):
    k, a = case["call"]["op"], case["args"]
    try:
        if k == 1501:
            return out[0] != a[0]
        if k == 1502:
            return out[0] != a[2]
        return out[1] != a[2]
    except Exception:
        return False
