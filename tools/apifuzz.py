"""Harness-side variation of HOW the public API is called (installed by common.import_impl in every worker):

  * memory layout: every 2-D array argument of a public method / function is handed over C-ordered, Fortran-ordered, as a
    transposed view or as a strided view (chosen from a checksum of its content, so a case always replays the same way);
    an in-place modification of the copy that was handed over is written back to the caller's array, so the checks that
    compare arguments before / after still see it;
  * earlier queries: before the first public call on an object, none or one of a few harmless queries (stream orders with
    and without mask, upstream areas in several units, streams / sub-basins with a minimum order, distances, basins) is
    run on it -- a result may not depend on what was asked before (results are compared with models / oracles that know
    nothing of these queries).

Neither changes what is asked, only how; both are switched off with VERIF_NOFUZZ=1 (C12 does its own histories and
compares memo occupancy with the model)."""
import functools, os, threading, zlib

import numpy as np

from implutil import layout

LAYOUTS = ["C", "C", "F", "T", "S"]
_tl = threading.local()


def _depth():
    return getattr(_tl, "d", 0)


def _crc(a):
    try:
        return zlib.crc32(np.ascontiguousarray(a).tobytes())
    except Exception:
        return 0


def _relay(a):
    """-> (array to pass, original or None)"""
    if not isinstance(a, np.ndarray) or a.ndim != 2 or a.size < 2 or a.dtype == object:
        return a, None
    mode = LAYOUTS[_crc(a) % len(LAYOUTS)]
    if mode == "C":
        return a, None
    return layout(a, mode), a


def _same(b, o):
    try:
        return np.array_equal(b, o, equal_nan=True)
    except TypeError:
        return np.array_equal(b, o)


def _fit(a, obj):
    """a (1, n) field handed to an object whose raster is (r, c) with r * c = n: the same field in the raster's shape
    (implutil.make_raster picks a 2-D shape for networks given without one, so that memory layout matters)"""
    if (obj is not None and isinstance(a, np.ndarray) and a.ndim == 2 and a.shape[0] == 1 and isinstance(getattr(obj, "shape", None), tuple)
            and a.shape != obj.shape and a.size == getattr(obj, "size", -1)):
        return a.reshape(obj.shape)
    return a


def _call(f, args, kw, obj=None):
    pairs, na, nk = [], [], {}
    for a in args:
        b, o = _relay(_fit(a, obj))
        na.append(b)
        if o is not None:
            pairs.append((b, o))
    for k, a in kw.items():
        b, o = _relay(_fit(a, obj))
        nk[k] = b
        if o is not None:
            pairs.append((b, o))
    try:
        return f(*na, **nk)
    finally:
        for b, o in pairs:
            if b.shape == o.shape and not _same(b, o):
                try:
                    o[...] = b          # the callee modified its argument in place: show it to the caller
                except Exception:
                    pass


def _recipes(obj, raster):
    n = obj.size
    r = np.random.RandomState(n * 7 + 3)
    m = r.rand(n) < 0.5
    upa = r.randint(1, 30, size=n).astype(np.float64)
    if raster:
        m, upa = m.reshape(obj.shape), upa.reshape(obj.shape)
    rec = [lambda: obj.stream_order(), lambda: obj.stream_order(type="classic"), lambda: obj.stream_order(mask=m),
           lambda: obj.stream_order(type="classic", mask=m), lambda: obj.upstream_area(), lambda: obj.main_upstream(uparea=upa),
           lambda: obj.idxs_us_main, lambda: obj.rank, lambda: obj.n_upstream]
    if raster:
        rec += [lambda: obj.upstream_area("km2"), lambda: obj.upstream_area("ha"), lambda: obj.streams(min_sto=3),
                lambda: obj.streams(min_sto=2), lambda: obj.subbasins_streamorder(min_sto=1, mask=m), lambda: obj.distnc,
                lambda: obj.area, lambda: obj.stream_distance(mask=m, unit="m"), lambda: obj.basins(),
                lambda: obj.subbasins_streamorder(min_sto=2)]          # (only queries that follow the cell order: safe on cyclic networks)
    return rec


def _prewarm(obj, name):
    if getattr(obj, "_vf_warm", False):
        return
    try:
        obj._vf_warm = True
    except Exception:
        return
    try:
        raster = hasattr(obj, "transform")
        h = zlib.crc32(np.ascontiguousarray(obj.idxs_ds).tobytes() + name.encode())
        if h % 2 == 0:
            return
        rec = _recipes(obj, raster)
        for k in range(1 + (h // 2) % 2):
            try:
                rec[(h // 4 + 7 * k) % len(rec)]()
            except Exception:
                pass
    except Exception:
        pass


def _wrap_method(cls, name):
    f = getattr(cls, name)

    @functools.wraps(f)
    def g(self, *args, **kw):
        if os.environ.get("VERIF_NOFUZZ") or _depth() > 0:
            return f(self, *args, **kw)
        _tl.d = 1
        try:
            _prewarm(self, name)
            return _call(functools.partial(f, self), args, kw, self)
        finally:
            _tl.d = 0
    g._vf = True
    setattr(cls, name, g)


def _wrap_function(mod, name):
    f = getattr(mod, name, None)
    if f is None or getattr(f, "_vf", False) or not callable(f):
        return

    @functools.wraps(f)
    def g(*args, **kw):
        if os.environ.get("VERIF_NOFUZZ") or _depth() > 0:
            return f(*args, **kw)
        _tl.d = 1
        try:
            return _call(f, args, kw)
        finally:
            _tl.d = 0
    g._vf = True
    setattr(mod, name, g)


_SKIP = {"load", "dump"}


def install():
    import pyflwdir
    from pyflwdir import flwdir as F, pyflwdir as P, dem, gis_utils, regions
    if getattr(pyflwdir, "_vf_installed", False):
        return
    pyflwdir._vf_installed = True
    for cls in (F.Flwdir, P.FlwdirRaster):
        for name, attr in list(vars(cls).items()):
            if name.startswith("_") or name in _SKIP or not callable(attr) or isinstance(attr, (staticmethod, classmethod, property)):
                continue
            _wrap_method(cls, name)
    for mod, names in ((P, ["from_array", "from_dem"]), (pyflwdir, ["from_array", "from_dem"]), (dem, ["fill_depressions"]),
                       (gis_utils, ["spread2d"]), (regions, ["region_dissolve", "region_outlets", "region_sum", "region_bounds", "region_slices"])):
        for nm in names:
            _wrap_function(mod, nm)
