import sys, os, random, importlib, json
sys.path.insert(0, os.path.dirname(os.path.abspath(__file__)))
import runner
from common import import_impl
pid, tier = sys.argv[1], sys.argv[2]
prop = importlib.import_module("props_" + pid.lower())
cases = list(prop.cases(tier, random.Random(20261001)))
recs, _, _ = runner.evaluate(prop, cases, 8)
bad = [r for r in recs if not r["agree"] or r["oracle"] is not None]
print(len(recs), "cases", len(bad), "bad")
seen = {}
for r in bad:
    g = (r["case"].get("group"), r["agree"], r["oracle"][0] if r["oracle"] else None)
    seen.setdefault(g, []).append(r)
for g, rs in seen.items():
    r = min(rs, key=lambda r: len(json.dumps(r["case"]["args"])))
    print(g, len(rs)); print("   case", r["case"]["args"], r["case"].get("call")); print("   impl ", str(r["impl"])[:400]); print("   model", str(r["model"])[:400]); print("   oracle", str(r["oracle"])[:400])
